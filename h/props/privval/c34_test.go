package privval

import (
	"bytes"
	"fmt"
	"os"
	"path/filepath"
	"sync"
	"sync/atomic"
	"testing"
	"time"

	"github.com/gnolang/gno/tm2/pkg/bft/privval"
	fstate "github.com/gnolang/gno/tm2/pkg/bft/privval/state"
	"github.com/gnolang/gno/tm2/pkg/bft/types"
	"github.com/gnolang/gno/tm2/pkg/crypto"
	"github.com/gnolang/gno/tm2/pkg/crypto/ed25519"
	"pgregory.net/rapid"
	"verif/vk"
)

// C34 — a validator never double-signs, even across crashes.
//
// A case is a sequence of signing requests, each with an optional fault. The
// real privval.PrivValidator runs over a real sign-state file. Faults are
// produced through the file system, which the harness owns:
//
//   crash-before-persist  the process dies after signing but before the atomic
//                         rename: the state file keeps its previous content
//                         (optionally a complete or torn temp file is left
//                         behind), the signature is never released, a new
//                         PrivValidator is loaded from the file;
//   crash-after-persist   dies after the rename, before returning: new file
//                         kept, signature not released, reload;
//   persist-fail          WriteFileAtomic fails (the state directory is moved
//                         away for the duration of the call, then put back
//                         with the file untouched); the process keeps running;
//   restart               clean stop/start between requests.
//
// Because the rename is atomic, "old file" and "new file" are the only two
// persistent states a crash inside the request can leave.

type c34Req struct {
	Kind    string `json:"kind"` // prevote | precommit | proposal
	H       int64  `json:"h"`
	R       int    `json:"r"`
	Block   int    `json:"block"`   // 0 = nil block id, n>0 = n-th distinct block id
	TS      int64  `json:"ts"`      // timestamp (seconds offset)
	Chain   int    `json:"chain"`   // 0 = the validator's chain, 1 = another chain id
	POL     int    `json:"pol"`     // proposals: POLRound
	Fault   string `json:"fault"`   // "" | crash-before-persist | crash-after-persist | persist-fail
	Stray   int    `json:"stray"`   // crash-before-persist: 0 no temp file left, 1 complete temp file, 2 torn temp file
	Restart bool   `json:"restart"` // clean restart after this request
}

type c34Case struct {
	Reqs []c34Req `json:"reqs"`
}

type c34Signer struct {
	priv  crypto.PrivKey
	signs int
}

func (s *c34Signer) PubKey() crypto.PubKey { return s.priv.PubKey() }
func (s *c34Signer) Sign(b []byte) ([]byte, error) {
	s.signs++
	return s.priv.Sign(b)
}
func (s *c34Signer) Close() error { return nil }

var c34Chains = []string{"c34-chain", "c34-other-chain"}

func c34Step(kind string) int {
	switch kind {
	case "proposal":
		return 1
	case "prevote":
		return 2
	}
	return 3
}

func c34BlockID(n int) types.BlockID {
	if n == 0 {
		return types.BlockID{}
	}
	h := bytes.Repeat([]byte{byte(n)}, 32)
	return types.BlockID{Hash: h, PartsHeader: types.PartSetHeader{Total: n, Hash: bytes.Repeat([]byte{byte(n + 100)}, 32)}}
}

func c34Time(ts int64) time.Time { return time.Unix(1_700_000_000+ts, 0).UTC() }

type c34Released struct {
	idx         int
	h           int64
	r, step     int
	signBytes   []byte
	sig         []byte
	ts          time.Time
	unpersisted bool // the state file did not record this signature when it was released
}

func c34Less(h1 int64, r1, s1 int, h2 int64, r2, s2 int) bool {
	if h1 != h2 {
		return h1 < h2
	}
	if r1 != r2 {
		return r1 < r2
	}
	return s1 < s2
}

var c34Seq atomic.Int64

func c34Scratch() (string, error) {
	base := os.Getenv("VERIF_TMP")
	if base == "" {
		return os.MkdirTemp("/var/tmp", "c34-")
	}
	d := filepath.Join(base, fmt.Sprintf("c34-%d-%d", os.Getpid(), c34Seq.Add(1)))
	return d, os.MkdirAll(d, 0o755)
}

func c34Exec(ctx *vk.Ctx, c c34Case) error {
	root, err := c34Scratch()
	if err != nil {
		return fmt.Errorf("harness: %v", err)
	}
	defer os.RemoveAll(root)
	dir := filepath.Join(root, "sd")
	if err := os.MkdirAll(dir, 0o755); err != nil {
		return fmt.Errorf("harness: %v", err)
	}
	path := filepath.Join(dir, "priv_validator_state.json")
	signer := &c34Signer{priv: ed25519.GenPrivKeyFromSecret([]byte("c34 validator key"))}
	load := func() (*privval.PrivValidator, error) { return privval.NewPrivValidator(signer, path) }
	pv, err := load()
	if err != nil {
		return fmt.Errorf("NewPrivValidator on a fresh directory: %v", err)
	}

	var released []c34Released
	var maxReqH int64 = -1 // highest HRS ever requested (whatever the outcome)
	maxReqR, maxReqS := -1, -1
	lastWasCrashAt := func(h int64, r, s int) bool { return false }
	type crashMark struct {
		h    int64
		r, s int
	}
	var crashes []crashMark
	lastWasCrashAt = func(h int64, r, s int) bool {
		for _, m := range crashes {
			if m.h == h && m.r == r && m.s == s {
				return true
			}
		}
		return false
	}
	persistTrouble := false // a persist failure happened in the life of the current process

	for i, q := range c.Reqs {
		step := c34Step(q.Kind)
		chain := c34Chains[q.Chain]
		where := fmt.Sprintf("request %d (%s H=%d R=%d block=%d ts=%d chain=%d fault=%q)", i, q.Kind, q.H, q.R, q.Block, q.TS, q.Chain, q.Fault)
		ctx.Class("fault=" + q.Fault)

		before, rerr := os.ReadFile(path)
		if rerr != nil {
			return fmt.Errorf("harness: state file unreadable before %s: %v", where, rerr)
		}
		if q.Fault == "persist-fail" {
			if err := os.Rename(dir, dir+".off"); err != nil {
				return fmt.Errorf("harness: %v", err)
			}
		}
		var vote *types.Vote
		var prop *types.Proposal
		var serr error
		var pnc any
		func() {
			defer func() { pnc = recover() }()
			if q.Kind == "proposal" {
				prop = &types.Proposal{Type: types.ProposalType, Height: q.H, Round: q.R, POLRound: q.POL, BlockID: c34BlockID(q.Block), Timestamp: c34Time(q.TS)}
				serr = pv.SignProposal(chain, prop)
			} else {
				typ := types.PrevoteType
				if q.Kind == "precommit" {
					typ = types.PrecommitType
				}
				vote = &types.Vote{Type: typ, Height: q.H, Round: q.R, BlockID: c34BlockID(q.Block), Timestamp: c34Time(q.TS),
					ValidatorAddress: signer.PubKey().Address(), ValidatorIndex: 0}
				serr = pv.SignVote(chain, vote)
			}
		}()
		if q.Fault == "persist-fail" {
			persistTrouble = true
			if err := os.Rename(dir+".off", dir); err != nil {
				return fmt.Errorf("harness: %v", err)
			}
		}
		if pnc != nil {
			return fmt.Errorf("%s: the signer panicked: %v", where, pnc)
		}
		after, rerr := os.ReadFile(path)
		if rerr != nil {
			return fmt.Errorf("%s: state file unreadable after the request: %v", where, rerr)
		}

		higher := c34Less(maxReqH, maxReqR, maxReqS, q.H, q.R, step)
		if higher {
			maxReqH, maxReqR, maxReqS = q.H, q.R, step
		}

		crashed := q.Fault == "crash-before-persist" || q.Fault == "crash-after-persist"
		if crashed {
			// the signature (if any) never left the process
			crashes = append(crashes, crashMark{q.H, q.R, step})
			if q.Fault == "crash-before-persist" {
				if err := os.WriteFile(path, before, 0o600); err != nil {
					return fmt.Errorf("harness: %v", err)
				}
				if !bytes.Equal(before, after) && q.Stray > 0 {
					tmp := after
					if q.Stray == 2 {
						tmp = after[:len(after)/2]
					}
					os.WriteFile(filepath.Join(dir, fmt.Sprintf("write-file-atomic-%019d", 1000+i)), tmp, 0o600)
					ctx.Class("stray-temp-file")
				}
			}
			ctx.ClassIf(!bytes.Equal(before, after), "crash-inside-a-persisting-request")
			if pv, err = load(); err != nil {
				return fmt.Errorf("%s: cannot reload the validator after the crash: %v", where, err)
			}
			persistTrouble = false
			continue
		}

		if serr == nil {
			// ---- a signature was released ----
			var sb, sig []byte
			var ts time.Time
			if q.Kind == "proposal" {
				sb, sig, ts = prop.SignBytes(chain), prop.Signature, prop.Timestamp
				if prop.Height != q.H || prop.Round != q.R || prop.POLRound != q.POL || !prop.BlockID.Equals(c34BlockID(q.Block)) {
					return fmt.Errorf("%s: the signer altered the proposal: %+v", where, prop)
				}
			} else {
				sb, sig, ts = vote.SignBytes(chain), vote.Signature, vote.Timestamp
				if vote.Height != q.H || vote.Round != q.R || !vote.BlockID.Equals(c34BlockID(q.Block)) || c34Step(q.Kind) != int(fstate.VoteTypeToStep(vote.Type)) {
					return fmt.Errorf("%s: the signer altered the vote: %+v", where, vote)
				}
			}
			if !signer.PubKey().VerifyBytes(sb, sig) {
				return fmt.Errorf("%s: released signature does not verify for the returned message (timestamp %v)", where, ts)
			}
			rel := c34Released{idx: i, h: q.H, r: q.R, step: step, signBytes: sb, sig: sig, ts: ts}
			// does the file on disk record what was just released?
			if st, lerr := fstate.LoadFileState(path); lerr != nil || st.Height != q.H || st.Round != q.R || int(st.Step) != step || !bytes.Equal(st.SignBytes, sb) {
				rel.unpersisted = true
				ctx.Class("released-without-persisted-state")
			}
			sameHRSBefore := false
			for _, p := range released {
				if p.h == q.H && p.r == q.R && p.step == step {
					sameHRSBefore = true
					if !bytes.Equal(p.signBytes, sb) || !bytes.Equal(p.sig, sig) {
						return fmt.Errorf("%s: DOUBLE SIGN: request %d already released a signature for the same height/round/step over different sign-bytes\n first: %x\n now:   %x", where, p.idx, p.signBytes, sb)
					}
					if !p.ts.Equal(ts) {
						return fmt.Errorf("%s: same height/round/step re-signed with timestamp %v, first release had %v", where, ts, p.ts)
					}
				}
				if c34Less(q.H, q.R, step, p.h, p.r, p.step) {
					return fmt.Errorf("%s: REGRESSION: signed below request %d which released a signature at H=%d R=%d step=%d", where, p.idx, p.h, p.r, p.step)
				}
			}
			if !ts.Equal(c34Time(q.TS)) {
				// the timestamp may only be replaced by that of an earlier request for the same H/R/S (released or
				// not: a crash or a failed write can keep a signature from being released)
				okTS := false
				for j := 0; j < i; j++ {
					p := c.Reqs[j]
					if p.H == q.H && p.R == q.R && c34Step(p.Kind) == step && ts.Equal(c34Time(p.TS)) {
						okTS = true
					}
				}
				if !okTS {
					return fmt.Errorf("%s: returned timestamp %v is neither the requested one nor that of an earlier request at this height/round/step", where, ts)
				}
			}
			ctx.ClassIf(sameHRSBefore, "re-release-same-hrs")
			ctx.ClassIf(sameHRSBefore && !ts.Equal(c34Time(q.TS)), "timestamp-only-resign")
			released = append(released, rel)
		} else {
			ctx.Class("rejected")
			// A request strictly above everything ever requested can only be refused when the state cannot be persisted.
			if higher && q.Fault != "persist-fail" {
				return fmt.Errorf("%s: refused although it is above every height/round/step requested so far: %v", where, serr)
			}
			// conflicting request right after a crash at the same H/R/S
			if lastWasCrashAt(q.H, q.R, step) {
				ctx.Class("rejected-after-crash-at-same-hrs")
				ctx.NT()
			}
		}
		if lastWasCrashAt(q.H, q.R, step) {
			ctx.Class("request-at-hrs-of-an-earlier-crash")
			ctx.NT()
		}
		if q.Fault == "persist-fail" && serr == nil && !bytes.Equal(before, after) {
			return fmt.Errorf("harness: state file changed during a persist failure")
		}
		ctx.ClassIf(persistTrouble && q.Fault != "persist-fail", "request-after-persist-failure")
		ctx.NTIf(persistTrouble && q.Fault != "persist-fail")
		if q.Restart {
			ctx.Class("clean-restart")
			if pv, err = load(); err != nil {
				return fmt.Errorf("%s: cannot reload the validator after a clean restart: %v", where, err)
			}
			persistTrouble = false
		}
	}
	return nil
}

var c34Faults = []string{"", "", "", "", "", "crash-before-persist", "crash-after-persist", "persist-fail"}

func c34DrawReq(rt *rapid.T, i int, prev *c34Req, top int64) c34Req {
	l := fmt.Sprintf("q%d", i)
	q := c34Req{}
	if prev != nil && rapid.IntRange(0, 9).Draw(rt, l+"rel") < 7 {
		q = *prev
		q.Fault, q.Stray, q.Restart = "", 0, false
		switch rapid.IntRange(0, 11).Draw(rt, l+"how") {
		case 0, 1: // exactly the same message again
		case 2, 3: // timestamp-only change
			q.TS = prev.TS + int64(rapid.IntRange(1, 5).Draw(rt, l+"dts"))
		case 4: // conflicting block
			q.Block = (prev.Block + 1 + rapid.IntRange(0, 1).Draw(rt, l+"blk")) % 3
		case 5: // conflicting block and timestamp
			q.Block = (prev.Block + 1) % 3
			q.TS = prev.TS + 1
		case 6: // other chain id
			q.Chain = 1 - prev.Chain
		case 7: // next step / next round / next height
			switch rapid.IntRange(0, 2).Draw(rt, l+"adv") {
			case 0:
				if prev.Kind == "proposal" {
					q.Kind = "prevote"
				} else {
					q.Kind = "precommit"
				}
			case 1:
				q.R = prev.R + 1
				q.Kind = rapid.SampledFrom([]string{"proposal", "prevote", "precommit"}).Draw(rt, l+"kind")
			default:
				q.H = prev.H + 1
				q.R = 0
				q.Kind = rapid.SampledFrom([]string{"proposal", "prevote", "precommit"}).Draw(rt, l+"kind")
			}
		case 8: // regress
			switch rapid.IntRange(0, 2).Draw(rt, l+"reg") {
			case 0:
				if prev.Kind == "precommit" {
					q.Kind = "prevote"
				} else {
					q.Kind = "proposal"
				}
			case 1:
				if prev.R > 0 {
					q.R = prev.R - 1
				}
			default:
				if prev.H > 1 {
					q.H = prev.H - 1
				}
			}
		case 9: // proposals: POL round change only
			q.POL = prev.POL + 1
		default:
			q.TS = prev.TS + 1
			q.Block = rapid.IntRange(0, 2).Draw(rt, l+"blk2")
		}
	} else {
		q.Kind = rapid.SampledFrom([]string{"proposal", "prevote", "precommit"}).Draw(rt, l+"kind")
		q.H = top + int64(rapid.IntRange(-1, 2).Draw(rt, l+"h"))
		if q.H < 1 {
			q.H = 1
		}
		q.R = rapid.IntRange(0, 2).Draw(rt, l+"r")
		q.Block = rapid.IntRange(0, 2).Draw(rt, l+"block")
		q.TS = int64(rapid.IntRange(0, 5).Draw(rt, l+"ts"))
		q.POL = rapid.IntRange(-1, 1).Draw(rt, l+"pol")
		if rapid.IntRange(0, 14).Draw(rt, l+"chain") == 0 {
			q.Chain = 1
		}
	}
	if q.Kind != "proposal" {
		q.POL = 0
	}
	q.Fault = rapid.SampledFrom(c34Faults).Draw(rt, l+"fault")
	if q.Fault == "crash-before-persist" {
		q.Stray = rapid.IntRange(0, 2).Draw(rt, l+"stray")
	}
	if q.Fault == "" || q.Fault == "persist-fail" {
		q.Restart = rapid.IntRange(0, 5).Draw(rt, l+"restart") == 0
	}
	return q
}

func TestC34_Sequences(t *testing.T) {
	vk.Run(t, vk.Spec[c34Case]{
		ID: "C34", Name: "TestC34_Sequences",
		Rule: "rapid: 3-30 signing requests (proposal/prevote/precommit; 70% derived from the previous request: identical, timestamp-only change, conflicting block id, other chain id, POL-round change, next step/round/height, regression in step/round/height) against the real file-backed PrivValidator, each with an optional fault injected through the file system (crash before the atomic rename with the old file kept and optionally a complete/torn temp file left behind, crash after the rename, WriteFileAtomic failure, clean restart). Oracle over the released signatures: each verifies; no two for one height/round/step with different sign-bytes or timestamps; none below an earlier released one; a request above everything requested so far is only refused when persisting fails. Non-trivial = a request arrives at the height/round/step of an earlier crash, or after a persist failure in the same process.",
		Draw: func(rt *rapid.T) c34Case {
			n := rapid.IntRange(3, 30).Draw(rt, "n")
			c := c34Case{}
			var prev *c34Req
			top := int64(1)
			for i := 0; i < n; i++ {
				q := c34DrawReq(rt, i, prev, top)
				if q.H > top {
					top = q.H
				}
				c.Reqs = append(c.Reqs, q)
				prev = &c.Reqs[len(c.Reqs)-1]
			}
			return c
		},
		Exec: c34Exec,
	})
}

// TestC34_Enum enumerates every sequence of length <= L over a small alphabet of
// requests around one height/round/step x every fault, i.e. every crash point of
// every short history.
func TestC34_Enum(t *testing.T) {
	r := vk.Open(t, "C34", "TestC34_Enum", "enumeration of complete sequence spaces over messages {prevote X at (2,1), X with another timestamp, a conflicting prevote Y at (2,1), a proposal at (2,1) (lower step), a precommit at (2,1) (higher step), a prevote at (1,0) (lower height)} x faults {none, crash before the rename, crash after the rename, persist failure}, each crash followed by a reload from the file. Quick: all sequences of length 2 over the six messages and of length 3 over the first three; thorough: length 3 over all six and length 4 over the first four (shorter sequences are prefixes). Same oracle as TestC34_Sequences")
	defer r.Close()
	if vk.Replaying() {
		t.Skip()
	}
	r.ReplayAs = "TestC34_Sequences"
	r.Extra("exhaustive", true)
	msgs := []c34Req{
		{Kind: "prevote", H: 2, R: 1, Block: 1, TS: 0},
		{Kind: "prevote", H: 2, R: 1, Block: 1, TS: 3},
		{Kind: "prevote", H: 2, R: 1, Block: 2, TS: 0},
		{Kind: "proposal", H: 2, R: 1, Block: 1, TS: 0, POL: -1},
		{Kind: "precommit", H: 2, R: 1, Block: 1, TS: 0},
		{Kind: "prevote", H: 1, R: 0, Block: 1, TS: 0},
	}
	faults := []string{"", "crash-before-persist", "crash-after-persist", "persist-fail"}
	mk := func(nmsgs int) []c34Req {
		var alphabet []c34Req
		for _, m := range msgs[:nmsgs] {
			for _, f := range faults {
				q := m
				q.Fault = f
				alphabet = append(alphabet, q)
			}
		}
		return alphabet
	}
	type plan struct {
		alphabet []c34Req
		L        int
	}
	// quick: all six messages at length 2 and the three prevotes at length 3; thorough: all six messages
	// at length 3 and the first four at length 4.
	plans := []plan{{mk(6), 2}, {mk(3), 3}}
	if r.Thorough() {
		plans = []plan{{mk(6), 3}, {mk(4), 4}}
	}
	r.Extra("plans", fmt.Sprintf("%d", len(plans)))
	// the file system work is synchronous (O_SYNC writes), so cases run on a pool of workers; every case owns
	// its directory and its validator, the outcome does not depend on the interleaving.
	ch := make(chan c34Case, 64)
	var stop atomic.Bool
	var wg sync.WaitGroup
	for w := 0; w < 16; w++ {
		wg.Add(1)
		go func() {
			defer wg.Done()
			for c := range ch {
				if stop.Load() {
					continue
				}
				if r.Do(c, func(ctx *vk.Ctx) error { return c34Exec(ctx, c) }) != nil {
					stop.Store(true)
				}
			}
		}()
	}
	for _, pl := range plans {
		var rec func(prefix []c34Req)
		rec = func(prefix []c34Req) {
			if stop.Load() {
				return
			}
			if len(prefix) == pl.L { // every shorter sequence is a prefix of these and is checked step by step
				ch <- c34Case{Reqs: append([]c34Req{}, prefix...)}
				return
			}
			for _, a := range pl.alphabet {
				rec(append(prefix, a))
			}
		}
		rec(nil)
	}
	close(ch)
	wg.Wait()
}
