package pure

import (
	"fmt"
	"math"
	"math/big"
	"sort"
	"testing"

	"github.com/gnolang/gno/tm2/pkg/std"
	"pgregory.net/rapid"
	"verif/vk"
)

// C18 — coin-set arithmetic matches the multiset model (map[denom]*big.Int).

type c18Coin struct {
	D string `json:"d"`
	A int64  `json:"a"`
}

type c18Case struct {
	Op    string    `json:"op"` // add sub addunsafe subunsafe cmp parse
	A     []c18Coin `json:"a"`
	B     []c18Coin `json:"b"`
	Alias string    `json:"alias"` // none | shared (A and B are adjacent windows of one array) | same (B is A) | spare (operands have spare capacity)
}

var c18Denoms = []string{"aaa", "bbb", "ccc", "ugnot", "/gno.land/r/x:tok"}

func c18DrawSet(rt *rapid.T, label string, allowZero, allowNeg bool) []c18Coin {
	var out []c18Coin
	for _, d := range c18Denoms { // already sorted ascending? ensure below
		if !rapid.Bool().Draw(rt, label+"has"+d) {
			continue
		}
		var a int64
		switch rapid.IntRange(0, 9).Draw(rt, label+"k"+d) {
		case 0:
			if allowZero {
				a = 0
			} else {
				a = 1
			}
		case 1:
			a = math.MaxInt64
		case 2:
			a = math.MaxInt64 - int64(rapid.IntRange(0, 3).Draw(rt, label+"m"+d))
		case 3:
			a = 1 << 62
		case 4:
			if allowNeg {
				a = -int64(rapid.IntRange(1, 1000).Draw(rt, label+"n"+d))
			} else {
				a = 1
			}
		case 5:
			if allowNeg {
				a = -math.MaxInt64 + int64(rapid.IntRange(0, 3).Draw(rt, label+"nn"+d))
			} else {
				a = 2
			}
		default:
			a = int64(rapid.IntRange(1, 1000).Draw(rt, label+"s"+d))
		}
		out = append(out, c18Coin{d, a})
	}
	sort.Slice(out, func(i, j int) bool { return out[i].D < out[j].D })
	return out
}

func c18Build(c c18Case) (a, b std.Coins) {
	mk := func(x []c18Coin) std.Coins {
		if x == nil {
			return nil
		}
		o := make(std.Coins, len(x))
		for i, v := range x {
			o[i] = std.Coin{Denom: v.D, Amount: v.A}
		}
		return o
	}
	switch c.Alias {
	case "shared":
		base := append(mk(c.A), mk(c.B)...)
		return base[:len(c.A)], base[len(c.A):]
	case "same":
		a = mk(c.A)
		return a, a
	case "spare":
		a = append(make(std.Coins, 0, len(c.A)+4), mk(c.A)...)
		b = append(make(std.Coins, 0, len(c.B)+4), mk(c.B)...)
		return a, b
	}
	return mk(c.A), mk(c.B)
}

func c18Model(x []c18Coin) map[string]*big.Int {
	m := map[string]*big.Int{}
	for _, v := range x {
		if m[v.D] == nil {
			m[v.D] = new(big.Int)
		}
		m[v.D].Add(m[v.D], big.NewInt(v.A))
	}
	return m
}

func c18Same(x std.Coins, orig []c18Coin) bool {
	if len(x) != len(orig) {
		return false
	}
	for i := range x {
		if x[i].Denom != orig[i].D || x[i].Amount != orig[i].A {
			return false
		}
	}
	return true
}

func c18Exec(ctx *vk.Ctx, c c18Case) error {
	ctx.Class(c.Op)
	ctx.Class("alias=" + c.Alias)
	B := c.B
	if c.Alias == "same" {
		B = c.A
	}
	a, b := c18Build(c)
	hasZero, hasExtreme := false, false
	for _, v := range append(append([]c18Coin{}, c.A...), B...) {
		hasZero = hasZero || v.A == 0
		hasExtreme = hasExtreme || v.A >= 1<<62 || v.A <= -(1<<62)
	}
	ctx.NTIf(hasZero || hasExtreme || c.Alias == "shared" || c.Alias == "same")
	ctx.ClassIf(hasZero, "zero-entry")
	ctx.ClassIf(hasExtreme, "extreme")
	switch c.Op {
	case "add", "sub", "addunsafe", "subunsafe":
		ma, mb := c18Model(c.A), c18Model(B)
		sub := c.Op == "sub" || c.Op == "subunsafe"
		want := map[string]*big.Int{}
		for d, v := range ma {
			want[d] = new(big.Int).Set(v)
		}
		for d, v := range mb {
			if want[d] == nil {
				want[d] = new(big.Int)
			}
			if sub {
				want[d].Sub(want[d], v)
			} else {
				want[d].Add(want[d], v)
			}
		}
		overflow, negative := false, false
		var wantList []c18Coin
		for d, v := range want {
			if !v.IsInt64() {
				overflow = true
				continue
			}
			if v.Sign() < 0 {
				negative = true
			}
			if v.Sign() != 0 {
				wantList = append(wantList, c18Coin{d, v.Int64()})
			}
		}
		sort.Slice(wantList, func(i, j int) bool { return wantList[i].D < wantList[j].D })
		safe := c.Op == "add" || c.Op == "sub"
		wantPanic := overflow || (safe && negative)
		var res std.Coins
		var pv any
		func() {
			defer func() { pv = recover() }()
			switch c.Op {
			case "add":
				res = a.Add(b)
			case "sub":
				res = a.Sub(b)
			case "addunsafe":
				res = a.AddUnsafe(b)
			case "subunsafe":
				res = a.SubUnsafe(b)
			}
		}()
		ctx.ClassIf(wantPanic, "panic-expected")
		if !c18Same(a, c.A) {
			if ctx.Known("operand-mutated-by-removeZeroCoins") {
				return nil
			}
			return fmt.Errorf("%s modified its receiver: before %v after %v", c.Op, c.A, a)
		}
		if !c18Same(b, B) {
			if ctx.Known("operand-mutated-by-removeZeroCoins") {
				return nil
			}
			return fmt.Errorf("%s modified its argument: before %v after %v", c.Op, B, b)
		}
		if (pv != nil) != wantPanic {
			return fmt.Errorf("%s(%v, %v): panicked=%v (%v), model says panic=%v (overflow=%v negative=%v)", c.Op, c.A, B, pv != nil, pv, wantPanic, overflow, negative)
		}
		if pv == nil {
			if !c18Same(res, wantList) {
				return fmt.Errorf("%s(%v, %v) = %v, model %v", c.Op, c.A, B, res, wantList)
			}
		}
	case "cmp":
		// both operands valid (positive) here by construction
		ma, mb := c18Model(c.A), c18Model(B)
		amt := func(m map[string]*big.Int, d string) int64 {
			if m[d] == nil {
				return 0
			}
			return m[d].Int64()
		}
		allGT := func(x, y map[string]*big.Int) bool { // documented: for every denom in y, present at a greater amount in x
			if len(x) == 0 {
				return false
			}
			for d := range y {
				if _, ok := x[d]; !ok || amt(x, d) <= amt(y, d) {
					return false
				}
			}
			return true
		}
		allGTE := func(x, y map[string]*big.Int) bool {
			for d := range y {
				if amt(y, d) > amt(x, d) {
					return false
				}
			}
			return true
		}
		anyGT := func(x, y map[string]*big.Int, eq bool) bool {
			for d := range x {
				if _, ok := y[d]; ok && (amt(x, d) > amt(y, d) || (eq && amt(x, d) == amt(y, d))) {
					return true
				}
			}
			return false
		}
		equal := len(ma) == len(mb)
		if equal {
			for d := range ma {
				if _, ok := mb[d]; !ok || amt(ma, d) != amt(mb, d) {
					equal = false
				}
			}
		}
		type chk struct {
			name      string
			got, want bool
		}
		var isEq bool
		var eqPanic any
		func() {
			defer func() { eqPanic = recover() }()
			isEq = a.IsEqual(b)
		}()
		// IsEqual on sets with different denoms at the same position panics in Coin.IsEqual; documented as "same value" → we only require the answer when it returns.
		checks := []chk{
			{"IsAllGT", a.IsAllGT(b), allGT(ma, mb)},
			{"IsAllGTE", a.IsAllGTE(b), allGTE(ma, mb)},
			{"IsAllLT", a.IsAllLT(b), allGT(mb, ma)},
			{"IsAllLTE", a.IsAllLTE(b), allGTE(mb, ma)},
			{"IsAnyGT", a.IsAnyGT(b), anyGT(ma, mb, false)},
			{"IsAnyGTE", a.IsAnyGTE(b), anyGT(ma, mb, true)},
		}
		if eqPanic == nil {
			checks = append(checks, chk{"IsEqual", isEq, equal})
		} else if equal {
			return fmt.Errorf("IsEqual(%v,%v) panicked on equal sets: %v", c.A, B, eqPanic)
		} else {
			ctx.Class("isequal-panicked-on-different-denoms")
		}
		for _, k := range checks {
			if k.got != k.want {
				return fmt.Errorf("%s(%v, %v) = %v, per-denomination model %v", k.name, c.A, B, k.got, k.want)
			}
		}
		if !c18Same(a, c.A) || !c18Same(b, B) {
			return fmt.Errorf("comparison modified an operand")
		}
		ctx.NTIf(len(c.A) > 0 && len(B) > 0)
	case "parse":
		if !a.IsValid() {
			return fmt.Errorf("generator produced invalid set %v", c.A)
		}
		s := a.String()
		back, err := std.ParseCoins(s)
		if err != nil {
			return fmt.Errorf("ParseCoins(%q) of valid set %v: %v", s, c.A, err)
		}
		if !c18Same(back, c.A) {
			return fmt.Errorf("ParseCoins(%q) = %v, want %v", s, back, c.A)
		}
		ctx.NTIf(len(c.A) >= 2)
	}
	return nil
}

func TestC18_Coins(t *testing.T) {
	vk.Run(t, vk.Spec[c18Case]{
		ID: "C18", Name: "TestC18_Coins",
		Rule: "rapid: op in {add,sub,addunsafe,subunsafe,cmp,parse} over sorted coin sets on a 5-denom alphabet with amounts from {0,1..1000,2^62,MaxInt64-k,(unsafe ops) negatives}; operands optionally share one backing array, are the same slice, or carry spare capacity; non-trivial = a zero entry, an extreme amount, or aliasing operands (cmp: both non-empty; parse: >=2 coins)",
		Draw: func(rt *rapid.T) c18Case {
			op := rapid.SampledFrom([]string{"add", "add", "sub", "sub", "addunsafe", "subunsafe", "cmp", "parse"}).Draw(rt, "op")
			c := c18Case{Op: op}
			unsafe := op == "addunsafe" || op == "subunsafe"
			arith := unsafe || op == "add" || op == "sub"
			c.A = c18DrawSet(rt, "a", arith, unsafe)
			c.Alias = "none"
			if op != "parse" {
				c.Alias = rapid.SampledFrom([]string{"none", "none", "shared", "same", "spare"}).Draw(rt, "alias")
				if c.Alias != "same" {
					c.B = c18DrawSet(rt, "b", arith, unsafe)
				}
			}
			return c
		},
		Exec: c18Exec,
	})
}
