package pure

import (
	"fmt"
	"math/big"
	"os"
	"strconv"
	"strings"
	"testing"

	"github.com/gnolang/gno/tm2/pkg/overflow"
	"pgregory.net/rapid"
	"verif/vk"
)

// C19 — overflow-checked integer arithmetic is exact. Oracle: math/big.

type c19Case struct {
	Type string `json:"type"` // int8 … uint64, int, uint
	Op   string `json:"op"`   // add sub mul div
	A    string `json:"a"`
	B    string `json:"b"`
}

var c19Types = []string{"int8", "int16", "int32", "int64", "int", "uint8", "uint16", "uint32", "uint64", "uint"}
var c19Ops = []string{"add", "sub", "mul", "div"}

func c19Range(typ string) (lo, hi *big.Int) {
	bits := map[string]uint{"int8": 8, "int16": 16, "int32": 32, "int64": 64, "int": 64, "uint8": 8, "uint16": 16, "uint32": 32, "uint64": 64, "uint": 64}[typ]
	if typ[0] == 'u' {
		hi = new(big.Int).Lsh(big.NewInt(1), bits)
		hi.Sub(hi, big.NewInt(1))
		return big.NewInt(0), hi
	}
	hi = new(big.Int).Lsh(big.NewInt(1), bits-1)
	lo = new(big.Int).Neg(hi)
	hi = new(big.Int).Sub(hi, big.NewInt(1))
	return lo, hi
}

func c19Apply[N overflow.Number](op string, a, b N) (res N, ok bool, pres N, panicked bool) {
	switch op {
	case "add":
		res, ok = overflow.Add(a, b)
	case "sub":
		res, ok = overflow.Sub(a, b)
	case "mul":
		res, ok = overflow.Mul(a, b)
	case "div":
		res, ok = overflow.Div(a, b)
	}
	func() {
		defer func() {
			if recover() != nil {
				panicked = true
			}
		}()
		switch op {
		case "add":
			pres = overflow.Addp(a, b)
		case "sub":
			pres = overflow.Subp(a, b)
		case "mul":
			pres = overflow.Mulp(a, b)
		case "div":
			pres = overflow.Divp(a, b)
		}
	}()
	return
}

func c19Run[N overflow.Number](typ, op string, A, B *big.Int, conv func(*big.Int) N, back func(N) *big.Int) error {
	a, b := conv(A), conv(B)
	res, ok, pres, panicked := c19Apply(op, a, b)
	var exact *big.Int
	switch op {
	case "add":
		exact = new(big.Int).Add(A, B)
	case "sub":
		exact = new(big.Int).Sub(A, B)
	case "mul":
		exact = new(big.Int).Mul(A, B)
	case "div":
		if B.Sign() != 0 {
			exact = new(big.Int).Quo(A, B) // truncated, as Go
		}
	}
	lo, hi := c19Range(typ)
	want := exact != nil && exact.Cmp(lo) >= 0 && exact.Cmp(hi) <= 0
	if ok != want {
		return fmt.Errorf("%s %s(%v,%v): ok=%v, representable=%v (exact %v)", typ, op, A, B, ok, want, exact)
	}
	if panicked == want {
		return fmt.Errorf("%s %sp(%v,%v): panicked=%v but representable=%v", typ, op, A, B, panicked, want)
	}
	if want {
		if back(res).Cmp(exact) != 0 {
			return fmt.Errorf("%s %s(%v,%v) = %v, want %v", typ, op, A, B, back(res), exact)
		}
		if back(pres).Cmp(exact) != 0 {
			return fmt.Errorf("%s %sp(%v,%v) = %v, want %v", typ, op, A, B, back(pres), exact)
		}
	}
	return nil
}

func sconv[N ~int | ~int8 | ~int16 | ~int32 | ~int64](x *big.Int) N { return N(x.Int64()) }
func uconv[N ~uint | ~uint8 | ~uint16 | ~uint32 | ~uint64](x *big.Int) N {
	return N(x.Uint64())
}
func sback[N ~int | ~int8 | ~int16 | ~int32 | ~int64](x N) *big.Int { return big.NewInt(int64(x)) }
func uback[N ~uint | ~uint8 | ~uint16 | ~uint32 | ~uint64](x N) *big.Int {
	return new(big.Int).SetUint64(uint64(x))
}

func c19Exec(typ, op string, A, B *big.Int) error {
	switch typ {
	case "int8":
		return c19Run(typ, op, A, B, sconv[int8], sback[int8])
	case "int16":
		return c19Run(typ, op, A, B, sconv[int16], sback[int16])
	case "int32":
		return c19Run(typ, op, A, B, sconv[int32], sback[int32])
	case "int64":
		return c19Run(typ, op, A, B, sconv[int64], sback[int64])
	case "int":
		return c19Run(typ, op, A, B, sconv[int], sback[int])
	case "uint8":
		return c19Run(typ, op, A, B, uconv[uint8], uback[uint8])
	case "uint16":
		return c19Run(typ, op, A, B, uconv[uint16], uback[uint16])
	case "uint32":
		return c19Run(typ, op, A, B, uconv[uint32], uback[uint32])
	case "uint64":
		return c19Run(typ, op, A, B, uconv[uint64], uback[uint64])
	case "uint":
		return c19Run(typ, op, A, B, uconv[uint], uback[uint])
	}
	return fmt.Errorf("bad type %s", typ)
}

// boundary values of a type: 0, ±1, min, max, ±2^k, ±2^k±1, sqrt(max) neighbours.
func c19Boundaries(typ string) []*big.Int {
	lo, hi := c19Range(typ)
	set := map[string]*big.Int{}
	add := func(x *big.Int) {
		if x.Cmp(lo) >= 0 && x.Cmp(hi) <= 0 {
			set[x.String()] = new(big.Int).Set(x)
		}
	}
	for _, d := range []int64{-2, -1, 0, 1, 2, 3} {
		add(big.NewInt(d))
		add(new(big.Int).Add(lo, big.NewInt(d)))
		add(new(big.Int).Add(hi, big.NewInt(d)))
	}
	for k := uint(1); k < 64; k++ {
		p := new(big.Int).Lsh(big.NewInt(1), k)
		for _, d := range []int64{-1, 0, 1} {
			v := new(big.Int).Add(p, big.NewInt(d))
			add(v)
			add(new(big.Int).Neg(v))
		}
	}
	sq := new(big.Int).Sqrt(hi)
	for _, d := range []int64{-1, 0, 1, 2} {
		v := new(big.Int).Add(sq, big.NewInt(d))
		add(v)
		add(new(big.Int).Neg(v))
	}
	out := make([]*big.Int, 0, len(set))
	for _, v := range set {
		out = append(out, v)
	}
	// deterministic order
	for i := range out {
		for j := i + 1; j < len(out); j++ {
			if out[j].Cmp(out[i]) < 0 {
				out[i], out[j] = out[j], out[i]
			}
		}
	}
	return out
}

// TestC19_Exhaustive enumerates all operand pairs of the 8-bit types (quick) and
// additionally of the 16-bit types (thorough), and the boundary cross product
// of the wider types.
func TestC19_Exhaustive(t *testing.T) {
	r := vk.Open(t, "C19", "TestC19_Exhaustive", "enumeration: all pairs of 8-bit (thorough: and 16-bit) operands x 4 ops, plus boundary-value cross product for 32/64-bit types; non-trivial = exact result not representable, or divisor 0, or an operand at min/max of the type")
	defer r.Close()
	if vk.Replaying() {
		t.Skip()
	}
	r.ReplayAs = "TestC19_Random"
	r.Extra("exhaustive", true)
	types := []string{"int8", "uint8"}
	if r.Thorough() {
		types = append(types, "int16", "uint16")
	}
	// The thorough tier is sharded (VERIF_SHARD of VERIF_SHARDS): a shard takes the first operands a
	// with index = shard (mod shards). For the 16-bit types the full 2^32 pair space per operation is
	// thinned to every 53rd second operand, at an offset that rotates with a (all residues are met over
	// neighbouring a), plus every boundary value as second operand; 8-bit stays exhaustive.
	shard, shards := 0, 1
	if v, err := strconv.Atoi(os.Getenv("VERIF_SHARDS")); err == nil && v > 1 {
		shards = v
		shard, _ = strconv.Atoi(os.Getenv("VERIF_SHARD"))
	}
	one := func(typ, op string, A, B *big.Int) bool {
		c := c19Case{typ, op, A.String(), B.String()}
		err := r.Do(c, func(ctx *vk.Ctx) error {
			lo, hi := c19Range(typ)
			ctx.NTIf(A.Cmp(lo) == 0 || A.Cmp(hi) == 0 || B.Cmp(lo) == 0 || B.Cmp(hi) == 0 || B.Sign() == 0)
			ctx.Class(typ + "/" + op)
			return c19Exec(typ, op, A, B)
		})
		return err == nil
	}
	for _, typ := range types {
		lo, hi := c19Range(typ)
		wide := strings.HasSuffix(typ, "16")
		step := int64(1)
		if wide {
			step = 53
		}
		bounds := c19Boundaries(typ)
		for _, op := range c19Ops {
			ai := 0
			for a := new(big.Int).Set(lo); a.Cmp(hi) <= 0; a.Add(a, big.NewInt(1)) {
				ai++
				if (ai-1)%shards != shard {
					continue
				}
				off := int64(0)
				if wide {
					off = int64((ai - 1) / shards * 7 % 53)
					for _, b := range bounds {
						if !one(typ, op, a, b) {
							return
						}
					}
				}
				for b := new(big.Int).Add(lo, big.NewInt(off)); b.Cmp(hi) <= 0; b.Add(b, big.NewInt(step)) {
					if !one(typ, op, a, b) {
						return
					}
				}
			}
		}
	}
	if shard != 0 {
		return
	}
	for _, typ := range []string{"int16", "uint16", "int32", "uint32", "int64", "uint64", "int", "uint"} {
		bs := c19Boundaries(typ)
		for _, op := range c19Ops {
			for _, a := range bs {
				for _, b := range bs {
					if !one(typ, op, a, b) {
						return
					}
				}
			}
		}
	}
}

func c19DrawOperand(rt *rapid.T, typ, label string) *big.Int {
	lo, hi := c19Range(typ)
	switch rapid.IntRange(0, 3).Draw(rt, label+"kind") {
	case 0:
		bs := c19Boundaries(typ)
		return bs[rapid.IntRange(0, len(bs)-1).Draw(rt, label+"b")]
	case 1: // small
		v := big.NewInt(int64(rapid.IntRange(-300, 300).Draw(rt, label+"s")))
		if v.Cmp(lo) < 0 || v.Cmp(hi) > 0 {
			return big.NewInt(0)
		}
		return v
	default:
		if typ[0] == 'u' {
			v := new(big.Int).SetUint64(rapid.Uint64().Draw(rt, label+"u"))
			return v.And(v, hi)
		}
		v := big.NewInt(rapid.Int64().Draw(rt, label+"i"))
		// arithmetic shift into range
		bits := uint(hi.BitLen() + 1)
		return v.Rsh(v, 64-bits)
	}
}

func TestC19_Random(t *testing.T) {
	vk.Run(t, vk.Spec[c19Case]{
		ID: "C19", Name: "TestC19_Random",
		Rule: "rapid: (type, op, a, b) with operands from boundary sets, small values and uniform bits; non-trivial = exact result outside the type's range or within 2 of a bound, or divisor 0",
		Draw: func(rt *rapid.T) c19Case {
			typ := rapid.SampledFrom(c19Types).Draw(rt, "type")
			op := rapid.SampledFrom(c19Ops).Draw(rt, "op")
			return c19Case{typ, op, c19DrawOperand(rt, typ, "a").String(), c19DrawOperand(rt, typ, "b").String()}
		},
		Exec: func(ctx *vk.Ctx, c c19Case) error {
			A, _ := new(big.Int).SetString(c.A, 10)
			B, _ := new(big.Int).SetString(c.B, 10)
			lo, hi := c19Range(c.Type)
			var ex *big.Int
			switch c.Op {
			case "add":
				ex = new(big.Int).Add(A, B)
			case "sub":
				ex = new(big.Int).Sub(A, B)
			case "mul":
				ex = new(big.Int).Mul(A, B)
			}
			if c.Op == "div" {
				ctx.NTIf(B.Sign() == 0 || (A.Cmp(lo) == 0 && lo.Sign() < 0 && B.Cmp(big.NewInt(-1)) == 0))
			} else {
				d1 := new(big.Int).Sub(ex, lo)
				d2 := new(big.Int).Sub(hi, ex)
				ctx.NTIf(d1.Cmp(big.NewInt(2)) <= 0 || d2.Cmp(big.NewInt(2)) <= 0)
				ctx.ClassIf(d1.Sign() < 0 || d2.Sign() < 0, "overflowing")
			}
			ctx.Class(c.Op)
			return c19Exec(c.Type, c.Op, A, B)
		},
	})
}
