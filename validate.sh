#!/bin/bash
# Validates MANIFEST.json and every evidence file against the task schemas (tooling venv has jsonschema).
python3-vt - <<'PY'
import json,jsonschema,glob
jsonschema.validate(json.load(open('/verif/MANIFEST.json')),json.load(open('/root/.vp/MANIFEST.schema.json')))
sch=json.load(open('/root/.vp/EVIDENCE.schema.json'))
n=0
for f in sorted(glob.glob('/verif/evidence/*.json')):
    jsonschema.validate(json.load(open(f)),sch); n+=1
print('manifest valid; %d evidence files valid'%n)
PY
