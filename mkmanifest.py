#!/usr/bin/env python3
"""Regenerates MANIFEST.json from checks.json (+ properties.jsonl for the not_applicable list)."""
import json, os
ROOT = os.path.dirname(os.path.abspath(__file__))
import glob
table = {os.path.basename(p)[:-5]: json.load(open(p)) for p in sorted(glob.glob(os.path.join(ROOT, "checks", "C*.json")))}
props = [json.loads(l) for l in open(os.path.join(ROOT, "properties.jsonl")) if l.strip()]
na_reasons = {}
p = os.path.join(ROOT, "not_applicable.json")
if os.path.exists(p):
    na_reasons = json.load(open(p))
hooks = json.load(open(os.path.join(ROOT, "hooks.json")))
ready = set(open(os.path.join(ROOT, "ready.txt")).read().split())
table = {k: v for k, v in table.items() if k in ready}
checks = []
for pr in props:
    pid = pr["id"]
    if pid not in table:
        continue
    e = table[pid]
    c = {
        "property_id": pid,
        "quick_cmd": "./vcheck %s quick" % pid,
        "thorough_cmd": "./vcheck %s thorough" % pid,
        "evidence_file": "/verif/evidence/%s.json" % pid,
        "replay_cmd_template": "./vcheck %s --replay {path}" % pid,
        "engine": e.get("engine", e.get("pkg", "")),
        "level_claimed": {"category": e.get("level", "exploration"), "text": e["level_text"], "design_ref": e.get("design_ref", "DESIGN.md §4 " + pid)},
        "level_note": e["level_note"],
        "technique": e.get("technique", "property-based testing (rapid) against an explicit oracle"),
    }
    checks.append(c)
na = []
for pr in props:
    if pr["id"] not in table:
        na.append({"property_id": pr["id"], "reason": na_reasons.get(pr["id"], "no check registered yet: the generated check designed in DESIGN.md §4 has not been built and calibrated in this session; nothing is claimed for it")})
man = {
    "version": 1,
    "setup_cmd": "./vsetup",
    "hooks": hooks,
    "engines": json.load(open(os.path.join(ROOT, "engines.json"))),
    "checks": checks,
    "not_applicable": na,
    "notes": "All checks are property-based tests / fuzzers (pgregory.net/rapid v1.3.0, porcupine, native go fuzz in thorough) run by ./vcheck; see DESIGN.md. Exit 2 + INCONCLUSIVE is used for infrastructure problems and is never a VIOLATION.",
}
json.dump(man, open(os.path.join(ROOT, "MANIFEST.json"), "w"), indent=1)
print("checks:", len(checks), "not_applicable:", len(na))
